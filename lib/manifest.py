#!/usr/bin/env python3
"""Regenerates /verif/MANIFEST.json from the table below (single source of truth for what is claimed)."""
import json, os, subprocess
V = os.path.dirname(os.path.dirname(os.path.abspath(__file__)))

CORE_NOTE = "Trusted: TLC/SANY/Json; the renderer and AST encoder (self-checked on every case by re-encoding the real parser's tree); the host probe functions. Bounds: nesting depth 2 exhaustive (3 sampled / exhaustive in thorough), small value pools, fuel 400; seeded random programs to depth 4-5. Points the statement leaves open are marked open by the specification and not compared."

CHECKS = {
 "C12": dict(level="model_checking", design="5 (C12), 3.6",
   technique="TLC exhaustive model checking of spec/AnkoEnv.tla (bounded) + transition-cover replay into package env + TLC trace validation of recorded random histories",
   text="The design (chain of dictionaries) is model-checked exhaustively in a bounded configuration with the clauses of the statement as invariants/action properties; "
        "every (state, call) transition of that model is replayed through the real public API with all results and the full observable projection compared, and independently "
        "generated random histories recorded from the real code are validated against the same specification by TLC. Level: model checking bound to the code by conformance in both directions.",
   note="Trusted: TLC/SANY/Json module, Go toolchain, the harness' token<->value mapping. Bounds: <=3 (quick) / 4 (thorough) scopes and 4 names, depth 3 / 4, in the broad exhaustive part and one value name + one type name at depth 4 / 5 in the deep one (the model carries the lazily-allocated-table bits so that define-delete-copy histories are distinct states); random traces use 8 scopes, 8 names, length 60-80. Error message texts and String() output are not compared."),
 "C13": dict(level="model_checking", design="5 (C13), 3.6, 4.2",
   technique="TLC model checking of spec/AnkoEnvConc.tla (lock-granular, linearizability vs AnkoEnv) + exhaustive schedule DFS of the real env package under a gate scheduler (mutex swapped by go build -overlay) with TLC validating every observed outcome + race detector runs",
   text="All interleavings at lock-acquisition granularity of 2-3 goroutines are explored twice: in the TLA+ model (TLC, with linearizability against the sequential specification, lock discipline and deadlock freedom) "
        "and on the real code (every schedule of every program tuple executed under a deterministic gate; each distinct outcome validated by TLC against the sequential specification; stuck schedules are deadlocks). "
        "Memory-level races are delegated to the race detector on real-scheduler runs whose outcomes are validated the same way.",
   note="Trusted: Go RWMutex semantics as documented; the overlay rewrite intercepts every sync.RWMutex/Mutex field of package env. Bounds: 2x2 calls over 9 call instances x 2 initial tables exhaustive (quick); 3x1 exhaustive, 2x3 and 3x2 sampled (thorough). Read-only parent as the property states."),

 "C04": dict(level="model_checking", design="5 (C04), 3.4",
   technique="TLC evaluation of the executable reference semantics spec/AnkoSem.tla over an exhaustively enumerated bounded program family + replay of every program on the real parser/VM",
   text="AnkoSem defines lexical scoping (nearest binding, assignment vs var, block/loop/function/module scopes, closures by reference, fresh scope per invocation) independently of the interpreter; TLC computes the demanded reads and final bindings for every program of the bounded family and for seeded random programs, and the real interpreter must reproduce them exactly, on every exit path.",
   note=CORE_NOTE),
 "C07": dict(level="model_checking", design="5 (C07), 3.4",
   technique="TLC evaluation of spec/AnkoSem.tla (left-to-right, exactly-once, short-circuit) over all operand-bearing forms (calls on every path, literals, operators, index reads, index-path assignment targets, arity rejections) x failing-operand positions and random programs over the whole language of the specification + replay on the real VM comparing the ordered probe log; go calls: the pipelines of AnkoChan.tla with probe operands on the direct, 5-parameter and variadic call paths",
   text="For every call path, literal, operator and short-circuit form with probe operands, and for every position of a failing operand, the ordered probe log demanded by the reference semantics is compared with the log written by the real interpreter.",
   note=CORE_NOTE),
 "C08": dict(level="model_checking", design="5 (C08), 3.4",
   technique="TLC evaluation of spec/AnkoSem.tla over all nestings (depth 2, thorough 3) of 14 control constructs (incl. channel loops) x 8 control leaves, truthiness/switch/for-in families, jumps through try/finally (both readings of the open point accepted) and seeded random programs (two generators) + replay on the real parser/VM",
   text="The reference semantics fixes which branch runs, how often loop bodies run, what break/continue/return bind to and what a function yields; every program of the bounded grammar is replayed and result, probe log and bindings compared.",
   note=CORE_NOTE),
 "C09": dict(level="model_checking", design="5 (C09), 3.4",
   technique="TLC evaluation of spec/AnkoSem.tla (throw/try/catch/finally, per-invocation LIFO defers) over terminator x defer-position families, templates (panicking Go functions, Go callbacks without results, channel loops) and seeded random programs + replay on the real VM",
   text="Defers (count, LIFO order, argument timing, result preservation, error precedence) and error propagation to the nearest try are defined by the reference semantics and compared on every program of the families on the real interpreter.",
   note=CORE_NOTE),
 "C14": dict(level="model_checking", design="5 (C14)",
   technique="solo outcome from TLC/AnkoSem; one parsed tree run sequentially and concurrently on fresh environments with a structural tree digest before/after, run k = run 1 = solo, one tree in environments that bind a type name differently (each variant = its alone result), package-table digest, race detector",
   text="Non-interference is checked on every program of the language-core corpora and a raw-source corpus: the tree digest (including the run-time slots inside call and literal nodes) never changes, every repeated/concurrent run equals the first and the specification's solo outcome, import copies leave the process-wide tables unchanged, and the race detector stays silent.",
   note=CORE_NOTE + " The race detector observes only the interleavings that occur."),
 "C05": dict(level="model_checking", design="5 (C05), 3.1, 3.2",
   technique="TLC: Int64.tla (byte-limb two's-complement arithmetic) model-checked at reduced width against native integers; AnkoArith.tla computes every operator x operand-pair result (exact int64, or the float64 primitive term) over the edge pools; replay on the real VM through four operand provenances; TLC trace validation of random int64 tuples",
   text="The integer tower is interpreted inside TLA+ (wrap-around, unsigned shift counts, truncated remainder, signed order, decimal formatting), itself model-checked exhaustively at width 8 bits and on an edge pool at 16 bits; the dispatch (which kind wins, which operand is converted, which primitive applies, error or not) is enumerated exhaustively over operator x pool x pool and compared, value and dynamic type, with the real interpreter. Float leaves are Go's own arithmetic by the statement's definition.",
   note="Trusted: IEEE-754 float64, fmt.Sprint formatting and float64(int64) rounding as implemented by Go (primitive terms); TLC. Bounds: 24 (quick) / 55 (thorough) int64 edge values, 13/27 floats, 4 strings, all ordered pairs x 15 binary + 2 unary operators, depth-2 integer trees over 6/9 values; random tuples 1.5k/20k."),
 "C06": dict(level="model_checking", design="5 (C06), 3.2",
   technique="TLC trace validation (Trace_AnkoEq.tla over AnkoEq.tla): the six syntactic uses of equality evaluated by the real VM for every ordered pair of the value pool are accepted iff the laws hold and the verdict matches where the statement decides",
   text="AnkoEq gives the relation the statement fixes (nil, same-type primitives, int-vs-float via float64, decimal numeral strings, structural containers) and leaves the rest open; the laws (symmetry, != negation, in/switch coherence, int-float equality iff <= and >=) are asserted for every pair. Exhaustive over the pool in both operand orders.",
   note="Trusted: Go's float64 == (recorded natively), the pool generator's numeric denotation of numeral strings, TLC. Bounds: 66 (quick) / 94 (thorough) values, all unordered pairs x both orders x 5 scripts."),
 "C17": dict(level="model_checking", design="5 (C17), 3.9",
   technique="TLC model checking of the walker machine (AnkoWalker.tla) on all trees up to 5 nodes + TLC trace validation of recorded astutil.Walk runs (with injected callback failures) over a kind x slot x kind grammar corpus, nodes enumerated by generic reflection",
   text="The walker specification (parent before child, finish only when everything was presented, a callback error ends the walk immediately) is explored exhaustively on small trees; every expression kind in every expression slot and every statement kind in every statement slot is parsed by the real parser, walked by the real walker and the recorded walk must be a behaviour of the machine, against the node set obtained independently by reflection.",
   note="Trusted: the reflection-based node enumeration (exported fields, *ast.TypeStruct excluded), TLC. Bounds: depth-2 kind x slot x kind corpus (about 3.7k sources, all 50 node kinds) + language-core corpora; callback failure injected at the first, middle and last call."),
 "C18": dict(level="model_checking", design="5 (C18), 3.9",
   technique="TLC model checking of AnkoCli.tla (phases flags/setup/read/execute/exit) + TLC validation of observations of the built ./anko (exit status, stdout) against the library verdict for the same source obtained in a child process",
   text="The command's small state machine is model-checked exhaustively; the real binary is built from the working tree and run over several hundred scripts (succeeding, failing at parse time, failing at run time, printing, using args) in both supply modes and with unreadable files, and every observation must be what the machine demands given vm.Execute's verdict in an equally prepared environment.",
   note="Trusted: TLC; stdout abstracted to (prefix equal to the library run's output, number of further lines). Interactive mode, -e \"\" and diagnostic texts are not asserted. Bounds: ~600 (quick) / ~3.5k (thorough) process launches."),
 "C15": dict(level="model_checking", design="5 (C15), 3.7",
   technique="TLC model checking of AnkoLexer.tla (scanner with offset/lineHead/line bookkeeping) against its declarative characterisation for all strings of bounded alphabets + replay of every token stream through the real Scanner.Scan + TLC validation of ParseSrc observations (totality, error position range, determinism, composition)",
   text="The scanner is specified as it is written (two-character lookahead by next/peek/back, numbers, strings, raw strings, comments) and TLC shows for every bounded string that line/column bookkeeping is exact, every scan makes progress and reported positions lie inside the input; the real scanner must produce the same token kinds, positions and internal state after each token. ParseSrc itself is exercised on those strings, a grammar corpus, all truncations, deletions, random bytes and deep nestings under a watchdog, and all ordered pairs of a pool of valid programs are checked for composition with shifted positions.",
   note="Trusted: TLC; one representative rune per character class; the goyacc LALR driver is exercised, not modelled (exploration for that part). Bounds: all strings <= 4 over 20 classes, <= 6-8 over four 6-8 class sub-alphabets; ~13k (quick) parse inputs and ~15k composition pairs."),
 "C03": dict(level="model_checking", design="5 (C03), 3.7",
   technique="TLC: operator table as data (AnkoGrammar.tla) with UnparseMin/UnparseFull and an independent declarative parser ParseRef, self-consistency checked on every tree; both spellings of every tree replayed through the real parser (tree equality, value equality, 18 statement positions); AnkoLiteral.tla computes literal denotations with Int64",
   text="The grammar's meaning is specified independently of the yacc file as a precedence/associativity table; TLC proves the table self-consistent on all expression trees up to depth 2 (depth 3 over level representatives in thorough) including every binary/unary operator pair, and the generated parser must build exactly the specified tree from the minimally and the fully parenthesised spelling, evaluate both to the same value and agree in every statement position. Integer literal denotations are computed exactly in TLA+ (edges of int64 in decimal, hex, binary), string escapes by a transducer.",
   note="Trusted: TLC; float literal values are a primitive supplied by the case generator (correctly rounded conversion); yacc conflict resolution is observed, not derived. Bounds: ~17.7k trees (quick), 165 literal spellings. One recorded deviation: `in` is right-associative (pinned by the repository's own test)."),
 "C16": dict(level="model_checking", design="5 (C16), 3.5",
   technique="TLC model checking (safety + liveness) of AnkoChan.tla pipelines under every interleaving, AnkoChanSeq.tla for the one-goroutine error forms; replay of every sequential program and repeated perturbed runs of every pipeline configuration on the real VM",
   text="The pipeline model (goroutines over buffered/unbuffered Go channels with rendezvous) is explored exhaustively for every configuration: FIFO/exactly-once per channel, delivery of everything, termination under weak fairness, no deadlock, with a value-losing spec mutant as negative control. The real interpreter runs each configuration many times under hook-injected schedule perturbation and several GOMAXPROCS and must always return the model's unique outcome (sequence and element type); all one-goroutine operation sequences (send on closed, double close, receive on closed, two-value receive) are replayed observation by observation, with and without a cancellable context.",
   note="Trusted: Go channel semantics as documented. Real schedules are sampled, not enumerated. Bounds: 0-2 (thorough 3) stages, capacity 0-2 (3), up to 3 (4) items, 3 consumer modes, 3 element types, stage functions with 3 / 5 / variadic parameters; pipelines of 5-70 stages beyond the model-checked sizes; the fan-out design AnkoChanFan (2-3 workers on one channel, model-checked with a negative control) with 2-5 workers and up to 40 items on the real VM; sequences up to length 5 (6) incl. the relay form d <- c."),
 "C02": dict(level="model_checking", design="5 (C02), 3.5",
   technique="TLC model checking (safety + liveness under weak fairness) of AnkoCancel.tla with wrong-design negative controls + cancellation delivered inside the verif hooks at every gate of every core x wrapper program on the real VM, observations validated by TLC",
   text="The abstract interpreter thread (polls at statement entry, loop heads and channel waits; interrupt wrapped at function boundaries; try, ?? and deferred calls as potential swallowers) is model-checked for every stack of up to three wrappers with cancellation at any moment: no effect after the cancellation is observed, the result is the interrupt, and cancelled leads to finished. On the real interpreter the context is cancelled at the k-th gate for every k (exact instants at poll granularity) for 18 spinning/blocking cores under 26 wrappers (incl. functions defined by an earlier run) and sampled pairs, and once asynchronously; 16 calls under one context contending for a host channel must all return; each run must return within 5 s with 'execution interrupted' and without later script effects.",
   note="Trusted: the hooks fire at the interpreter's polling sites (a removed hook shows as fewer instants, not as an alarm); wall-clock bound 5 s vs. measured latencies of microseconds to ~30 ms. Time inside one host Go call (including callbacks it makes) is outside the property."),
 "C20": dict(level="model_checking", design="5 (C20), 3.2",
   technique="TLC enumerates operation template x operand value x provenance chain and builds each script (AnkoProvenance.tla); outcomes observed on the real VM are validated by TLC against the law Outcome(T[c(v)]) = Outcome(T[v])",
   text="Every provenance hop (slice element, map entry, script call, Go call returning interface{}, parentheses, ternary, ??) is specified as the identity on values; the product of ~130 operation templates (every operator position, index/slice/len/in, call/spread/member/deref, loops, switch, conditions, make sizes, channel operations, delete, throw, assignment targets, defer/go) x 16 operand values x all chains up to length 2 (3) is enumerated by TLC and each instantiated script must yield the same canonical value, dynamic type and error-or-success as with the bare variable.",
   note="Trusted: the canonical printing of outcomes (pointers followed, addresses masked, maps sorted); the bare-variable outcome is the reference, so an operation that is wrong for every provenance alike is not this property's business. Chains may start at a NAMED list / map that stays reachable, with templates whose later operand stores into it after the read. One excluded combination (element assignment on a string through a non-assignable operand)."),
 "C10": dict(level="model_checking", design="5 (C10), 3.8",
   technique="TLC exhaustive model checking of the bounded machine MC_AnkoContainers.tla over AnkoContainers.tla (design properties as invariants / action properties, negative controls) + transition-cover replay into the real interpreter + TLC trace validation (Trace_AnkoContainers.tla) of recorded random histories",
   text="The specification keeps the heap of backing arrays and slice headers explicitly, so aliasing, writes through shared storage, appends within and beyond capacity and 3-index capacity limits are part of the state; each recorded statement's result and the whole projection after it (contents, len, cap, storage sharing measured through data pointers, map contents, fields) must be a step the specification allows, with errors leaving everything unchanged. The same Step function drives a bounded machine (per family: slices, maps, strings, typed containers and struct fields incl. a map-typed field and values read into variables) that TLC explores exhaustively up to a depth bound with the clauses of the statement as properties (WindowOK, TypedHolds, ErrUnchanged, ReadsPure, StoreExact, SliceShares, AliasIsReference, GrowthLocal, StringsAreValues, MapAliasing, BoundValuesStay); one history per transition is replayed on the interpreter and judged by the trace specification.",
   note="Trusted: TLC; the harness' projection through reflection (data pointers for sharing). Bounds: depth 4-5 (quick) / 6 (thorough) per family over alphabets of 40-70 statements; seeded random histories (400x30 quick, 6000x40 thorough) over 11 variables, ~35 operation kinds; points the statement leaves open end the judged part of a history; capacity growth is taken from the log."),
 "C11": dict(level="model_checking", design="5 (C11), 3.8",
   technique="TLC enumerates the conversion table and call-shape table of AnkoCall.tla over signatures x argument tuples x call shapes (tables checked total); replay against host functions built with reflect.MakeFunc comparing the arguments actually received; the Results, MethodReachable and callback (CallbackSees / CallbackReturns) tables enumerated and replayed likewise; scenario checks for round trips, members, addresses of fields and callbacks",
   text="Which argument feeds which parameter, whether the call is delivered or rejected, and how each value is converted (identity, Go conversion, zero value, element-wise, callback adapter, error) are decided by the TLA+ tables for every combination of the bounded pools and compared with what a reflect-built host function of that very signature receives; identity round trips, field access through values and pointers, value/pointer-receiver methods, variadic and spread delivery, multiple results and callback conversion/error surfacing are checked on concrete host values.",
   note="Trusted: reflect.Convert as Go's own conversion; TLC. Bounds: 15 parameter types, 15 argument kinds, one- and two-parameter and variadic signatures, ~8.5k cases; results: 0-3 results over 12 kinds (typed nils, errors, interfaces); methods: 8 receiver shapes x value/pointer receiver x 0-2 arguments; callbacks: Go func types with 0-2 fixed + optional variadic parameters (0-3 values) x script functions with 0-3 named + optional variadic parameters, 0-2 declared results x 0-3 returned values (203 cases); 54 scenarios."),
 "C19": dict(level="model_checking", design="5 (C19), 3.9",
   technique="TLC computes range progressions with the Int64 limb arithmetic and the toInt/toFloat dispatch (AnkoBuiltins.tla) for enumerated argument tuples; replay in a memory-limited watchdogged worker; native-Go oracles for the remaining builtins; TLC validation of the reflected package tables against EntryOK",
   text="range is specified as the int64 progression strictly before stop and computed bit-exactly in TLA+ for all small triples and for extreme triples at the int64 edges (where the implementation must stop instead of wrapping); conversions are dispatched in TLA+ to exact values or named Go primitives. The remaining builtins are compared with the same computation done natively in Go over a value universe, including misuse; all 595 package-table entries are reflected (runtime symbol / type identity) and validated against the rule that an entry is the Go function or type it is listed under.",
   note="Level model_checking for range and the conversion dispatch; the native-oracle part and the table audit are stateless comparisons (level 'other' in spirit) and are declared as such in the evidence assumptions. Trusted: strconv, fmt, reflect, runtime.FuncForPC. Two table entries are allow-listed with reasons."),
 "C01": dict(level="exploration", design="5 (C01)",
   technique="specification-derived input generation (TLC builds every operation template x operand-kind tuple, incl. ill-typed ones; degenerate forms; grammar corpus; mutations; token soups; random bytes) executed in memory-limited worker processes; host machine AnkoHost.tla model-checked; observations validated by TLC (a run must end by Return)",
   text="Absence of panics cannot be proved by a model of 5 kLoC of reflection code; what the specification contributes is the systematic input space (the total product of operation templates and operand kinds, well-typed or not) and the acceptance rule. Every input is parsed and executed with Debug off in a worker; a panic reaching the caller, a dead worker (fatal error or a panic on a goroutine started by go) or a hang is attributed to exactly one input.",
   note="Level exploration: bounded, generator-driven. Memory/stack exhaustion and astronomically large sizes are outside the guarantee and are not generated. Environment: values a script can construct, core builtins, bundled packages."),
# <<ADD>>
}

NOT_YET0 = "not claimed"

def main():
    props = [json.loads(l) for l in open(os.path.join(V, "properties.jsonl"))]
    hooks_commits = subprocess.run(["git", "-C", "/repo", "log", "--format=%H %s", "--grep=^verif:"], stdout=subprocess.PIPE, text=True).stdout.split("\n")
    hooks_commits = [l.split(" ")[0] for l in hooks_commits if l.strip()]
    m = {
      "version": 1,
      "setup_cmd": "bin/setup",
      "hooks": {"guard": "verif", "enable": "go build/test -tags verif (harness module in /verif/harness with replace github.com/mattn/anko => /repo); C13 additionally swaps the env mutex type through go build -overlay generated at check time",
                "baseline_off_cmd": "cd /repo && GOFLAGS=-mod=mod GOPROXY=off go test -vet=off -count=1 ./...",
                "source_commits": hooks_commits, "add_only": True},
      "engines": [
        {"name": "tlc-spec", "path": "spec/", "serves_properties": sorted(CHECKS), "kind_free_text": "TLA+ specifications checked with TLC (exhaustive, simulation, trace validation)"},
        {"name": "go-conformance", "path": "harness/", "serves_properties": sorted(CHECKS), "kind_free_text": "Go harnesses replaying TLC behaviours into the real packages and recording traces for TLC"},
      ],
      "checks": [], "not_applicable": [],
      "notes": "Driver: bin/check <ID> --tier quick|thorough. Exit 0 held / 1 VIOLATION / 2 machinery broken. Known findings: KNOWN_FINDINGS.json. See DESIGN.md.",
    }
    for p in props:
        i = p["id"]
        if i in CHECKS:
            c = CHECKS[i]
            m["checks"].append({
              "property_id": i, "quick_cmd": "bin/check %s --tier quick" % i, "thorough_cmd": "bin/check %s --tier thorough" % i,
              "evidence_file": "evidence/%s.json" % i, "replay_cmd_template": "bin/check %s --replay {path}" % i, "engine": "tlc-spec",
              "level_claimed": {"category": c["level"], "text": c["text"], "design_ref": "DESIGN.md section " + c["design"]},
              "level_note": c["note"], "technique": c["technique"]})
        else:
            m["not_applicable"].append({"property_id": i, "reason": NOT_YET0})
    json.dump(m, open(os.path.join(V, "MANIFEST.json"), "w"), indent=1)
    print("MANIFEST.json: %d checks, %d not claimed" % (len(m["checks"]), len(m["not_applicable"])))

if __name__ == "__main__":
    main()
