"""Every statement and expression kind of the anko grammar in every child position of every other kind
(depth 2), as source text: slot templates x fillers.  Used by C17 (walker), C15 (parsing) and C01."""

EXPR_FILLERS = [
    ("ident", "x"), ("int", "1"), ("neg", "-2"), ("float", "1.5"), ("str", '"s"'), ("true", "true"), ("nil", "nil"),
    ("paren", "(x)"), ("unary-minus", "-x"), ("not", "!x"), ("bitnot", "^x"), ("addr", "&x"), ("deref", "*x"),
    ("add", "x + 1"), ("mul", "x * 2"), ("cmp", "x < 1"), ("eq", "x == 1"), ("and", "x && y"), ("or", "x || y"), ("shift", "x << 1"),
    ("tern", "x ? 1 : 2"), ("nilco", "x ?? 1"), ("array", "[1, x]"), ("empty-array", "[]"), ("map", '{"k": x}'), ("typed-array", "[]int64{1, 2}"),
    ("typed-map", "map[string]int64{\"a\": 1}"), ("member", "x.y"), ("item", "x[0]"), ("slice", "x[0:1]"), ("slice3", "x[0:1:2]"), ("slice-open", "x[1:]"),
    ("call", "f(x)"), ("call-spread", "f(x...)"), ("anon-call", "x.y(1)"), ("func", "func(a) { return a }"), ("func-call", "func(a) { return a }(1)"),
    ("len", "len(x)"), ("in", "x in [1]"), ("make", "make([]int64, 1, 2)"), ("make-map", "make(map[string]int64)"), ("new", "new(int64)"),
    ("make-chan", "make(chan int64, 1)"), ("recv", "<-c"), ("send", "c <- 1"), ("inc", "x++"), ("opassign", "x += 1"), ("import", 'import("strings")'),
    ("make-type", "make(type T, x)"),
]

EXPR_SLOTS = [
    ("expr-stmt", "%s"), ("let-rhs", "z = %s"), ("let-rhs2", "z, w = 1, %s"), ("var-rhs", "var z = %s"), ("let-lhs-item", "z[%s] = 1"), ("let-lhs-member", "(%s).m = 1"),
    ("if-cond", "if %s { }"), ("elseif-cond", "if x { } else if %s { }"), ("loop-cond", "for %s { break }"), ("cfor-cond", "for i = 0; %s; i++ { break }"),
    ("cfor-post", "for i = 0; i < 1; %s { break }"), ("forin-value", "for v in %s { }"), ("return", "return %s"), ("return2", "return 1, %s"), ("throw", "throw %s"),
    ("switch-subject", "switch %s { case 1: x }"), ("switch-case", "switch x { case %s: y }"), ("switch-case2", "switch x { case 1, %s: y }"),
    ("defer-arg", "defer f(%s)"), ("go-arg", "go f(%s)"), ("delete-item", "delete(%s)"), ("delete-key", "delete(m, %s)"), ("close", "close(%s)"),
    ("call-arg", "f(%s)"), ("call-arg2", "f(1, %s)"), ("anon-callee", "(%s)(1)"), ("array-elem", "[1, %s]"), ("map-key", "{%s: 1}"), ("map-value", "{\"k\": %s}"),
    ("paren", "(%s)"), ("unary", "-(%s)"), ("not", "!(%s)"), ("binary-l", "(%s) + 1"), ("binary-r", "1 + (%s)"), ("cmp-l", "(%s) < 2"), ("and-r", "x && (%s)"),
    ("tern-c", "(%s) ? 1 : 2"), ("tern-a", "x ? (%s) : 2"), ("tern-b", "x ? 1 : (%s)"), ("nilco-l", "(%s) ?? 1"), ("nilco-r", "x ?? (%s)"),
    ("member-base", "(%s).m"), ("item-base", "(%s)[0]"), ("item-index", "x[%s]"), ("slice-base", "(%s)[0:1]"), ("slice-begin", "x[%s:1]"), ("slice-end", "x[0:%s]"), ("slice-cap", "x[0:1:%s]"),
    ("len", "len(%s)"), ("in-item", "(%s) in y"), ("in-list", "x in (%s)"), ("make-len", "make([]int64, %s)"), ("make-cap", "make([]int64, 1, %s)"), ("make-type", "make(type T, %s)"),
    ("send-value", "c <- (%s)"), ("send-chan", "(%s) <- 1"), ("recv", "<-(%s)"), ("chan-stmt", "v, ok = <-(%s)"), ("let-map-item", "v, ok = m[%s]"), ("import", "import(%s)"),
    ("addr", "&(%s)"), ("deref", "*(%s)"), ("opassign-r", "x += (%s)"), ("func-body", "func() { return %s }"),
    # lists whose lengths differ from their counterpart, later positions of longer lists, optional children left out
    ("lets-surplus-rhs", "z, w = 1, 2, %s"), ("lets-surplus-rhs2", "z = 1, %s"), ("lets-short-rhs", "z, w, q = %s"), ("lets-lhs-item3", "z, w, q[%s] = 1, 2, 3"),
    ("var-rhs3", "var z, w, q = 1, 2, %s"), ("return3", "return 1, 2, %s"), ("call-arg3", "f(1, 2, %s)"), ("array-elem3", "[1, 2, %s]"), ("map-value2", "{\"a\": 1, \"b\": %s}"),
    ("map-key2", "{\"a\": 1, %s: 2}"), ("switch-case3", "switch x { case 1, 2, %s: y }"), ("switch-2nd-case", "switch x { case 1: y  case %s: z }"),
    ("typed-array-elem", "[]int64{1, %s}"), ("typed-map-value", "map[string]int64{\"a\": %s}"), ("typed-map-key", "map[string]int64{%s: 1}"),
    ("slice-end-only", "x[:%s]"), ("slice-begin-only", "x[%s:]"), ("slice3-no-begin-cap", "x[:1:%s]"), ("slice3-no-begin-end", "x[:%s:2]"),
    ("slice-base-open", "(%s)[1:]"), ("slice-base-open2", "(%s)[:1]"), ("make-chan-size", "make(chan int64, %s)"), ("elseif-cond2", "if x { } else if y { } else if %s { }"),
    ("switch-default-only-expr", "switch x { default: %s }"), ("switch-subject-default-only", "switch %s { default: y }"),
    # size arguments the grammar accepts for ANY made type (what the interpreter does with them is not the walker's business)
    ("make-map-size", "make(map[string]int64, %s)"), ("make-chan-size2", "make(chan int64, 1, %s)"), ("make-chan-size1of2", "make(chan int64, %s, 2)"), ("make-scalar-size", "make(int64, %s)"),
    ("make-scalar-size2", "make(int64, 1, %s)"), ("make-struct-size", "make(struct { A int64 }, %s)"), ("make-struct-size2", "make(struct { A int64 }, 1, %s)"), ("make-named-size", "make(T, %s)"),
    ("make-named-size2", "make(T, 1, %s)"), ("make-ptr-size", "make(*int64, %s)"), ("make-slice2-len", "make([][]int64, %s, 4)"), ("make-module-type-size", "make(m.T, %s)"),
    # compound assignments of every operator family, targets of every kind
    ("opassign-mul-r", "x *= (%s)"), ("opassign-div-r", "x /= (%s)"), ("opassign-and-r", "x &= (%s)"), ("opassign-or-r", "x |= (%s)"), ("opassign-minus-r", "x -= (%s)"),
    ("opassign-target-index", "x[%s] *= 2"), ("opassign-target-base", "(%s)[0] /= 2"), ("inc-target-index", "x[%s]++"), ("dec-target-index", "x[%s]--"), ("opassign-member-base", "(%s).k &= 1"),
    ("defer-arg2", "defer f(1, %s)"), ("go-arg2", "go f(1, %s)"), ("anon-call-arg2", "x.y(1, %s)"), ("delete-item-key", "delete(%s, 1)"), ("let-map-item-base", "v, ok = (%s)[1]"),
]

STMT_FILLERS = [
    ("expr", "x"), ("let", "a = 1"), ("lets", "a, b = 1, 2"), ("var", "var a = 1"), ("let-map-item", "v, ok = m[1]"), ("if", "if x { y }"),
    ("if-else", "if x { y } else if z { w } else { v }"), ("try", "try { x } catch e { y } finally { z }"), ("try-novar", "try { x } catch { y }"),
    ("loop", "for { break }"), ("while", "for x { continue }"), ("cfor", "for i = 0; i < 2; i++ { x }"), ("forin", "for v in x { y }"), ("forin2", "for k, v in x { y }"),
    ("return", "return 1"), ("return0", "return"), ("throw", "throw x"), ("module", "module m { a = 1 }"), ("switch", "switch x { case 1: y  case 2, 3: z  default: w }"),
    ("switch-default-only", "switch x { default: w }"), ("switch-empty", "switch x { }"), ("switch-case-only", "switch x { case 1: y }"), ("if-empty", "if x { }"), ("try-empty", "try { } catch { }"),
    ("func-empty", "func g0() { }"), ("module-empty", "module m0 { }"), ("forin-empty", "for v in x { }"),
    ("go", "go f(1)"), ("go-anon", "go func() { x }()"), ("defer", "defer f(1)"), ("defer-anon", "defer func() { x }()"), ("delete", "delete(m, 1)"), ("delete1", "delete(\"a\")"),
    ("close", "close(c)"), ("chan-stmt", "v = <-c"), ("chan-stmt-ok", "v, ok = <-c"), ("break", "for { break }"), ("func-decl", "func g(a, b...) { return a }"),
]

STMT_SLOTS = [
    ("top", "%s"), ("after", "q = 0\n%s\nq = 1"), ("if-then", "if c {\n%s\n}"), ("if-else", "if c { } else {\n%s\n}"), ("elseif-then", "if c { } else if d {\n%s\n}"),
    ("loop-body", "for {\n%s\nbreak\n}"), ("while-body", "for c {\n%s\n}"), ("cfor-body", "for i = 0; i < 1; i++ {\n%s\n}"), ("forin-body", "for v in l {\n%s\n}"),
    ("try-body", "try {\n%s\n} catch e { }"), ("catch-body", "try { } catch e {\n%s\n}"), ("finally-body", "try { } catch e { } finally {\n%s\n}"),
    ("switch-case", "switch c {\ncase 1:\n%s\n}"), ("switch-default", "switch c {\ncase 1:\nx\ndefault:\n%s\n}"), ("module-body", "module mm {\n%s\n}"),
    ("func-body", "func ff() {\n%s\n}"), ("anon-func-body", "h = func() {\n%s\n}"), ("cfor-init", None),
    ("elseif2-then", "if c { } else if d { } else if e {\n%s\n}"), ("else-after-elseif", "if c { } else if d { } else {\n%s\n}"), ("switch-2nd-case", "switch c {\ncase 1:\nx\ncase 2:\n%s\n}"),
    ("switch-only-default", "switch c {\ndefault:\n%s\n}"), ("switch-default-first", "switch c {\ndefault:\n%s\ncase 1:\nx\n}"),
    ("second-stmt", "q = 0\nq = 1\n%s"), ("try-body-nocatchvar", "try {\n%s\n} catch { }"), ("finally-only-after", "try { x } catch e { y } finally {\nq\n%s\n}"),
]


def sources():
    out = []
    for sn, slot in EXPR_SLOTS:
        for fn, fill in EXPR_FILLERS:
            out.append({"id": "e-%s-%s" % (sn, fn), "src": slot % fill})
    for sn, slot in STMT_SLOTS:
        if slot is None:
            continue
        for fn, fill in STMT_FILLERS:
            out.append({"id": "s-%s-%s" % (sn, fn), "src": slot % fill})
    for fn, fill in (("let", "a = 1"), ("lets", "a, b = 1, 2"), ("var", "var a = 1")):
        out.append({"id": "s-cfor-init-" + fn, "src": "for %s; a < 2; a++ { x }" % fill})
    return out
